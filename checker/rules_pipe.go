package main

import (
	"go/ast"
	"go/token"
	"go/types"
	"regexp"
	"sort"
	"strconv"
	"strings"

	"golang.org/x/tools/go/ssa"
)

func init() {
	register(&PropInfo{
		ID:    "C02",
		Title: "A pipe/socket session stays in frame after every request, good or bad",
		Explanation: "R-ONE-RESPONSE: on every path of serveOne that keeps serving, exactly one responder (writeErrorResponse | serveDescribe | serveTransportOptions | serveUnary | serveStream) runs; transport-stop returns run none. In serveUnary every return is preceded by exactly one complete IPC stream (writeErrorResponse | WriteVoidResponse | WriteUnaryResponse | explicit ipc.NewWriter…Close). " +
			"R-STREAM-DRAIN: every return of serveStream is preceded on all paths by drainInputStream(r) or by the trailing inputReader.Next() drain loop that follows outputWriter.Close(), except returns guarded by a transport error (writeStreamHeader / ipc.NewReader err != nil); answered pre-loop failures write exactly one error stream. " +
			"R-GATE-DRAIN: the protocol-version refusal in serveOne drains the client's input stream when the method is a stream. " +
			"R-OUT-CLOSE: once the output writer is open every path to return passes outputWriter.Close(). " +
			"R-READ-DRAIN: ReadRequest drains to end-of-stream before any validation failure return.",
		NotCovered:  []string{"response ordering under arbitrary histories (follows from the sequential loop)", "client-side framing", "unknown *stream* methods (the statement only lists unknown unary methods)"},
		Assumptions: []string{"ipc.Reader.Next() returns false at end of stream and on error"},
		Run:         runC02,
	})
	register(&PropInfo{
		ID:    "C04",
		Title: "Unary calls return the handler's value or its error, after its logs",
		Explanation: "R-UNARY-ORDER: in serveUnary every return is preceded by exactly one of {error stream, void response, unary response}; on the error path logs are written before the single exception batch and nothing after it; WriteUnaryResponse writes logs before the result batch. In handleUnary every return after authentication is preceded by exactly one response write. " +
			"R-HANDLER-RECOVER: every reflect Handler.Call is covered by a deferred recover whose branch builds an RpcError with Type \"RuntimeError\". " +
			"R-REQID: the request-id argument of every log/error/response writer in the unary paths is the served request's RequestID. " +
			"R-LOG-FILTER: CallContext.ClientLog appends only under priority(level) <= priority(ctx.LogLevel); logLevelPriority is strictly increasing over the six levels. " +
			"R-DRAINLOGS: drainLogs runs after the handler and before any write.",
		NotCovered:  []string{"value equality of the result batch with the handler's return value (C08)"},
		Assumptions: []string{},
		Run:         runC04,
	})
	register(&PropInfo{
		ID:    "C06",
		Title: "Pipe streams obey the lockstep contract",
		Explanation: "On serveStream: R-HEADER-FIRST (header stream cannot follow the output writer), R-ONE-TURN (the recover-covered Produce/Exchange closure cannot run twice without an intervening inputReader.Next()), R-CANCEL (OnCancel recover-covered, at one site, and no turn reachable after it), R-FAIL-ONE-EXC (after any writeErrorBatch no further error batch, turn or data write is reachable), R-VALIDATE (validate()'s failure branch and the streamErr branch cannot reach a data write), R-FINISH-EXCHANGE (finished set only under producerMode), R-ONE-DATA (dataBatchIdx assigned only under dataBatchIdx < 0).",
		NotCovered:  []string{"batch value equality", "how many ticks a client sends"},
		Assumptions: []string{},
		Run:         runC06,
	})
	register(&PropInfo{
		ID:    "C10",
		Title: "The protocol-version gate admits exactly same-major.minor clients",
		Explanation: "R-GATE-PRESENT: in serveOne, handleUnary and handleStreamInit the branch on protocolVersionSet dominates parameter binding and dispatch; its true arm calls checkProtocolVersion on the request's vgi_rpc.protocol_version entry; the refusal arm writes an error and cannot reach dispatch. R-DESCRIBE-EXEMPT: the __describe__ responders are unreachable after the gate. R-GATE-KIND: ProtocolVersionError.ErrorKind() is the constant protocol_version_mismatch. R-SEMVER: checkProtocolVersion returns nil only under major and minor equality, and parseSemver does not discard a strconv.Atoi error.",
		NotCovered:  []string{"the regex language vs the semver grammar", "wording of the directional message"},
		Assumptions: []string{},
		Run:         runC10,
	})
	register(&PropInfo{
		ID:    "C36",
		Title: "Shared-memory pipe sessions match plain pipe sessions and leak no slots",
		Explanation: "R-FREE-PAIR: every ResolveShmBatch call is followed, under rerr == nil and release, by FreeOffset(releaseOff) on the same segment. R-NO-SEGMENT-ERROR: a batch for which IsShmPointerBatch holds is either resolved or answered with an error — the request batch in serveOne and every stream input batch in serveStream (an error batch under IsShmPointerBatch ∧ req.Shm == nil). R-SEGMENT-SCOPE: req.Shm is set only on the hasSegName ∨ reqWasPointer edges.",
		NotCovered:  []string{"result equality with and without a segment", "allocation-table emptiness after all releases (runtime history)"},
		Assumptions: []string{},
		Run:         runC36,
	})
	register(&PropInfo{
		ID:    "C37",
		Title: "Dispatch hooks see exactly one start and one end per dispatched call",
		Explanation: "R-PIPE-PAIR: in serveOne no return lies between the start closure and the hookActive test guarding the end closure; OnDispatchStart/End are recover-covered; hookActive is set only after OnDispatchStart returned. R-HTTP-DEFER: every startDispatchHook call is followed, before any call or return, by a defer of its cleanup result. R-ERR-IFF-ERROR-RESPONSE: after the hook has started every error-signalling response write in the HTTP handlers is preceded by an assignment of the reported error to handlerErr (same block, or guarded by handlerErr != nil), and the continuation helpers return non-nil after any error write. R-DISPATCH-RECOVER: shared with C03.",
		NotCovered:  []string{"identity of the hook token passed to end (same variable by construction)", "hooks implemented by users"},
		Assumptions: []string{},
		Run:         runC37,
	})
}

// closureCalls returns the call instructions in fn that invoke an anonymous
// function of fn whose body (deeply) contains a call matching m.
func (u *Unit) closureCalls(fn *ssa.Function, m func(string) bool) []CallSite {
	var out []CallSite
	Instrs(fn, func(in ssa.Instruction) {
		ci, ok := in.(ssa.CallInstruction)
		if !ok {
			return
		}
		var callee *ssa.Function
		switch f := ci.Common().Value.(type) {
		case *ssa.MakeClosure:
			callee = f.Fn.(*ssa.Function)
		case *ssa.Function:
			if f.Parent() != nil {
				callee = f
			}
		}
		if callee == nil || callee.Parent() == nil {
			return
		}
		if len(u.CallsDeep(callee, m)) > 0 {
			out = append(out, CallSite{fn, ci, u.qualName(callee)})
		}
	})
	return out
}

func isInstr(target ssa.Instruction) func(ssa.Instruction) bool {
	return func(in ssa.Instruction) bool { return in == target }
}

func anyInstr(ts ...ssa.Instruction) func(ssa.Instruction) bool {
	return func(in ssa.Instruction) bool {
		for _, t := range ts {
			if in == t {
				return true
			}
		}
		return false
	}
}

// ---------------------------------------------------------------- C02

func runC02(c *Ctx) {
	u, r := c.U, c.R
	r.Floor("R-ONE-RESPONSE", 10)
	r.Floor("R-STREAM-DRAIN", 8)
	// serveOne
	if fn := c.Fn("R-ONE-RESPONSE", "(*Server).serveOne"); fn != nil {
		resp := u.CallMatcher(Is("writeErrorResponse", "(*Server).serveDescribe", "(*Server).serveTransportOptions", "(*Server).serveUnary", "(*Server).serveStream"), false)
		counts := CountOnPaths(fn, nil, resp, IsReturn)
		i := 0
		Instrs(fn, func(in ssa.Instruction) {
			ret, ok := in.(*ssa.Return)
			if !ok {
				return
			}
			mm, reachable := counts[in]
			if !reachable || InRecoverBlock(in) {
				return
			}
			i++
			d := u.Describe(ReturnValue(ret, 0))
			stop := strings.Contains(d, "global:EOF") || d == "ReadRequest(r)#1"
			inst := "serveOne|return " + d
			if stop {
				r.Check(mm.Min == 0 && mm.Max == 0, "R-ONE-RESPONSE", inst, u.Pos(in.Pos()), "transport-stop return writes nothing", "transport-stop return is preceded by a response write")
			} else {
				r.Check(mm.Min == 1 && mm.Max == 1, "R-ONE-RESPONSE", inst, u.Pos(in.Pos()), "exactly one responder on every path to this return",
					"paths to this return run "+itoa(mm.Min)+".."+itoa(mm.Max)+" responders (2 = many): the request is answered zero or several times and the session goes out of frame")
			}
		})
		// R-GATE-DRAIN
		gate := u.Calls(fn, Is("(*Server).checkProtocolVersion"))
		if len(gate) != 1 {
			r.Undec("R-GATE-DRAIN", "serveOne", u.Pos(fn.Pos()), "expected one checkProtocolVersion call")
		} else {
			okDrain := false
			pred := ""
			for _, cs := range u.Calls(fn, Is("drainInputStream")) {
				if u.HasGuardContaining(cs.Instr, "checkProtocolVersion(", "!= nil") {
					okDrain = true
					for _, g := range u.GuardStrings(cs.Instr) {
						if strings.Contains(g, "info.Type") || strings.Contains(g, ".Type") && strings.Contains(g, "methods[") {
							pred = g
						}
					}
					if pred == "" {
						// unconditional drain would block on a unary call (no input stream follows): must be stream-only
						for _, p := range cs.Instr.Block().Preds {
							if ifi, ok := p.Instrs[len(p.Instrs)-1].(*ssa.If); ok {
								pred = "∨-edge:" + u.Describe(ifi.Cond)
							}
						}
					}
				}
			}
			r.Check(okDrain, "R-GATE-DRAIN", "serveOne|version-refusal", u.Pos(gate[0].Instr.Pos()),
				"version refusal drains the stream method's input", "the protocol-version refusal answers a stream call with an error but never drains the client's input stream: the next ReadRequest parses the tick stream")
			if okDrain {
				// the drain predicate must be "the method is a stream" in the same sense the dispatcher uses
				canonical := strings.Contains(pred, `(methodTypeString(`) && strings.HasSuffix(pred, `== "stream")`) || strings.HasSuffix(pred, ".Type != 0)") || strings.Contains(pred, `!= "unary")`)
				r.Check(canonical, "R-GATE-DRAIN", "serveOne|drain-predicate", u.Pos(gate[0].Instr.Pos()),
					"drain applies to every stream method: "+pred, "the refusal drains only under `"+pred+"`, which is not the dispatcher's stream predicate (methodTypeString(info.Type) == \"stream\" / Type != MethodUnary): some stream kinds (e.g. dynamic) are refused without draining")
			}
			c.streamPredicateTable(fn)
		}
	}
	// serveUnary
	if fn := c.Fn("R-ONE-RESPONSE", "(*Server).serveUnary"); fn != nil {
		resp := u.CallMatcher(Or(Is("writeErrorResponse", "WriteVoidResponse", "WriteUnaryResponse"), HasSuffix("ipc.NewWriter")), false)
		counts := CountOnPaths(fn, nil, resp, IsReturn)
		i := 0
		Instrs(fn, func(in ssa.Instruction) {
			if _, ok := in.(*ssa.Return); !ok {
				return
			}
			mm, reachable := counts[in]
			if !reachable || InRecoverBlock(in) {
				return
			}
			i++
			r.Check(mm.Min == 1 && mm.Max == 1, "R-ONE-RESPONSE", "serveUnary|return#"+itoa(i), u.Pos(in.Pos()), "exactly one response stream", "serveUnary return preceded by "+itoa(mm.Min)+".."+itoa(mm.Max)+" response streams")
		})
		for _, nw := range u.Calls(fn, HasSuffix("ipc.NewWriter")) {
			_, reach := ReachWithout(fn, nw.Instr, IsReturn, u.CallMatcher(HasSuffix("ipc.Writer).Close"), true))
			r.Check(!reach, "R-ONE-RESPONSE", "serveUnary|writer-closed", u.Pos(nw.Instr.Pos()), "explicit writer is closed before return", "an IPC writer opened in serveUnary can reach return without Close(): no end-of-stream marker")
		}
	}
	// serveStream
	if fn := c.Fn("R-STREAM-DRAIN", "(*Server).serveStream"); fn != nil {
		nws := u.Calls(fn, HasSuffix("ipc.NewWriter"))
		closes := u.Calls(fn, HasSuffix("ipc.Writer).Close"))
		if len(nws) != 1 || len(closes) != 1 {
			r.Undec("R-OUT-CLOSE", "serveStream", u.Pos(fn.Pos()), "expected one output writer and one Close")
			return
		}
		nw, cl := nws[0], closes[0]
		_, reach := ReachWithout(fn, nw.Instr, IsReturn, isInstr(cl.Instr))
		r.Check(!reach, "R-OUT-CLOSE", "serveStream", u.Pos(cl.Instr.Pos()), "every path from the open output writer to return passes Close()", "a path leaves serveStream with the output stream unterminated")
		// trailing drain: Next() calls dominated by Close
		var trailing []ssa.Instruction
		for _, cs := range u.Calls(fn, HasSuffix("ipc.Reader).Next")) {
			if Dominates(cl.Instr, cs.Instr) {
				trailing = append(trailing, cs.Instr)
			}
		}
		drain := func(in ssa.Instruction) bool {
			for _, t := range trailing {
				if t == in {
					return true
				}
			}
			return u.CallMatcher(Is("drainInputStream"), false)(in)
		}
		werr := u.CallMatcher(Is("writeErrorResponse"), false)
		i := 0
		Instrs(fn, func(in ssa.Instruction) {
			if _, ok := in.(*ssa.Return); !ok || InRecoverBlock(in) {
				return
			}
			i++
			gs := u.GuardStrings(in)
			transport := false
			for _, g := range gs {
				if (strings.Contains(g, "writeStreamHeader(") || strings.Contains(g, "ipc.NewReader(")) && strings.HasSuffix(g, "!= nil)") {
					transport = true
				}
			}
			inst := "serveStream|return#" + itoa(i)
			if transport {
				r.Ok("R-STREAM-DRAIN", inst, u.Pos(in.Pos()), "transport-error return (connection is being abandoned)")
				return
			}
			_, undrained := ReachWithout(fn, nil, isInstr(in), drain)
			r.Check(!undrained, "R-STREAM-DRAIN", inst, u.Pos(in.Pos()), "input stream drained on every path to this return",
				"a path reaches this return without draining the client's input stream (guards: "+strings.Join(gs, " && ")+"): the next request on the connection is read from the middle of the tick/exchange stream")
			if !Dominates(nw.Instr, in) {
				mm := CountOnPaths(fn, nil, werr, isInstr(in))[in]
				r.Check(mm.Min == 1 && mm.Max == 1, "R-ONE-RESPONSE", inst, u.Pos(in.Pos()), "pre-stream failure answered with exactly one error stream", "pre-stream failure return preceded by "+itoa(mm.Min)+".."+itoa(mm.Max)+" error streams")
			}
		})
	}
	// ReadRequest
	if fn := c.Fn("R-READ-DRAIN", "ReadRequest"); fn != nil {
		nexts := u.Calls(fn, HasSuffix("ipc.Reader).Next"))
		if len(nexts) < 2 {
			r.Undec("R-READ-DRAIN", "ReadRequest", u.Pos(fn.Pos()), "drain loop not found")
			return
		}
		drainNext := nexts[len(nexts)-1].Instr
		// the drain must be a loop that only exits when Next() reports end of stream
		dv := nexts[len(nexts)-1].Value()
		_, loops := ReachWithout(fn, drainNext, isInstr(drainNext), nil)
		r.Check(loops, "R-READ-DRAIN", "ReadRequest|drain-loop", u.Pos(drainNext.Pos()), "drain is a loop over reader.Next()", "the post-batch Next() is not a loop: extra batches (and the end-of-stream marker) of a multi-batch request are left on the connection")
		exitedByEOS := func(in ssa.Instruction) bool {
			for _, g := range GuardsAt(in.Block()) {
				if g.Cond == dv && !g.Truth {
					return true
				}
			}
			return false
		}
		i := 0
		Instrs(fn, func(in ssa.Instruction) {
			ret, ok := in.(*ssa.Return)
			if !ok {
				return
			}
			d := u.Describe(ret.Results[1])
			if !strings.Contains(d, "RpcError") && d != "nil" {
				return
			}
			i++
			_, undrained := ReachWithout(fn, nil, isInstr(in), isInstr(drainNext))
			r.Check(!undrained && exitedByEOS(in), "R-READ-DRAIN", "ReadRequest|return#"+itoa(i), u.Pos(in.Pos()), "request stream drained to EOS before this return", "ReadRequest can return a verdict without having drained the request stream to end-of-stream (return not on the Next()==false edge of the drain loop)")
		})
	}
}

// ---------------------------------------------------------------- C04

func runC04(c *Ctx) {
	u, r := c.U, c.R
	seedfixC04(c)
	r.Floor("R-REQID", 8)
	if fn := c.Fn("R-UNARY-ORDER", "(*Server).serveUnary"); fn != nil {
		// error path: after writeErrorBatch no log write and no result write reachable
		for _, eb := range u.Calls(fn, Is("writeErrorBatch")) {
			_, reach := ReachWithout(fn, eb.Instr, u.CallMatcher(Is("writeLogBatch", "writeErrorBatch", "WriteUnaryResponse", "WriteVoidResponse"), false), nil)
			r.Check(!reach, "R-UNARY-ORDER", "serveUnary|after-exception", u.Pos(eb.Instr.Pos()), "the exception batch is the last batch of the error response", "after the exception batch another log/result/exception write is reachable")
			r.Check(u.HasGuardContaining(eb.Instr, "callErr", "!= nil"), "R-UNARY-ORDER", "serveUnary|exception-iff-error", u.Pos(eb.Instr.Pos()), "exception batch only under callErr != nil", "exception batch written without callErr != nil")
		}
		for _, ok := range u.Calls(fn, Is("WriteUnaryResponse", "WriteVoidResponse")) {
			r.Check(u.HasGuardContaining(ok.Instr, "callErr", "== nil"), "R-UNARY-ORDER", "serveUnary|"+ok.Callee, u.Pos(ok.Instr.Pos()), "result written only under callErr == nil", "a result is written although the handler failed")
		}
	}
	if fn := c.Fn("R-UNARY-ORDER", "WriteUnaryResponse"); fn != nil {
		ws := u.Calls(fn, HasSuffix("ipc.Writer).Write"))
		if len(ws) != 1 {
			r.Undec("R-UNARY-ORDER", "WriteUnaryResponse", u.Pos(fn.Pos()), "expected exactly one result Write")
		} else {
			_, reach := ReachWithout(fn, ws[0].Instr, u.CallMatcher(Is("writeLogBatch"), false), nil)
			r.Check(!reach, "R-UNARY-ORDER", "WriteUnaryResponse|logs-first", u.Pos(ws[0].Instr.Pos()), "no log batch can follow the result batch", "a log batch can be written after the result batch")
			mm := CountOnPaths(fn, nil, isInstr(ws[0].Instr), IsReturn)
			many := false
			for _, v := range mm {
				if v.Max > 1 {
					many = true
				}
			}
			r.Check(!many, "R-UNARY-ORDER", "WriteUnaryResponse|one-result", u.Pos(ws[0].Instr.Pos()), "at most one result batch", "result batch can be written more than once")
		}
	}
	if fn := c.Fn("R-UNARY-ORDER", "(*HttpServer).handleUnary"); fn != nil {
		auths := u.Calls(fn, Is("(*HttpServer).authenticate"))
		resp := u.CallMatcher(Is("(*HttpServer).writeArrow", "(*HttpServer).writeHttpError", "(*HttpServer).writeBodyReadError", "(*HttpServer).writeUnaryCapError", "(*HttpServer).handleDescribe"), false)
		if len(auths) == 1 {
			i := 0
			Instrs(fn, func(in ssa.Instruction) {
				if _, ok := in.(*ssa.Return); !ok {
					return
				}
				if !GuardedNonNil(in, auths[0].Value()) {
					return
				}
				i++
				mm := CountOnPaths(fn, auths[0].Instr, resp, isInstr(in))[in]
				r.Check(mm.Min == 1 && mm.Max == 1, "R-UNARY-ORDER", "handleUnary|return#"+itoa(i), u.Pos(in.Pos()), "exactly one HTTP response write", "handleUnary return preceded by "+itoa(mm.Min)+".."+itoa(mm.Max)+" response writes")
			})
		}
		for _, eb := range u.Calls(fn, Is("writeErrorBatch")) {
			r.Check(u.HasGuardContaining(eb.Instr, "callErr", "!= nil"), "R-UNARY-ORDER", "handleUnary|exception-iff-error", u.Pos(eb.Instr.Pos()), "exception batch only under callErr != nil", "exception batch written without callErr != nil")
			_, reach := ReachWithout(fn, eb.Instr, u.CallMatcher(Is("writeLogBatch", "writeErrorBatch", "WriteUnaryResponse", "WriteVoidResponse"), false), nil)
			r.Check(!reach, "R-UNARY-ORDER", "handleUnary|after-exception", u.Pos(eb.Instr.Pos()), "the exception batch is the last batch", "after the exception batch another batch write is reachable")
		}
	}

	// R-HANDLER-RECOVER: every reflect.Value.Call in the package
	r.Floor("R-HANDLER-RECOVER", 6)
	for _, f := range u.SrcFuncs() {
		for _, cs := range u.Calls(f, Is("(reflect.Value).Call")) {
			cov := u.CoveredByRecover(cs.Instr)
			rt := false
			if cov {
				for _, d := range u.RecoverDefers(f) {
					if mc, ok := d.Call.Value.(*ssa.MakeClosure); ok {
						rfn := mc.Fn.(*ssa.Function)
						for _, s := range u.StoresToField(rfn, "RpcError", "Type") {
							if v, ok := ConstString(s.Val); ok && v == "RuntimeError" {
								rt = true
							}
						}
						// every error the recover branch assigns to a captured variable is that fresh RuntimeError
						Instrs(rfn, func(in ssa.Instruction) {
							st, ok := in.(*ssa.Store)
							if !ok || !isErrorType(derefType(st.Addr.Type())) {
								return
							}
							v := st.Val
							if mi, ok := v.(*ssa.MakeInterface); ok {
								v = mi.X
							}
							if al, ok := v.(*ssa.Alloc); !ok || typeShort(al.Type()) != "*RpcError" {
								rt = false
								r.Viol("R-HANDLER-RECOVER", shortName(f)+"|recover-assigns "+u.Describe(st.Val), u.Pos(in.Pos()), "the recover branch assigns "+u.Describe(st.Val)+" as the call's error: a panic must always surface as RuntimeError, never as the panic value's own type")
							}
						})
					}
				}
			}
			r.Check(cov && rt, "R-HANDLER-RECOVER", shortName(f), u.Pos(cs.Instr.Pos()), "handler invocation under recover → RpcError{Type: RuntimeError}", "user handler is invoked without a deferred recover that reports RuntimeError")
		}
	}

	// R-REQID
	writers := map[string]int{"writeLogBatch": 4, "writeErrorBatch": 4, "WriteUnaryResponse": 5, "WriteVoidResponse": 3, "writeErrorResponse": 4, "(*HttpServer).writeUnaryCapError": 3}
	for _, name := range []string{"(*Server).serveUnary", "(*HttpServer).handleUnary", "(*HttpServer).writeUnaryCapError"} {
		fn := c.Fn("R-REQID", name)
		if fn == nil {
			continue
		}
		for _, cs := range u.Calls(fn, func(s string) bool { _, ok := writers[s]; return ok }) {
			d := u.Describe(cs.Arg(writers[cs.Callee]))
			ok := strings.HasSuffix(d, "req.RequestID") || strings.HasSuffix(d, ".RequestID") && strings.Contains(d, "ReadRequest") || (name == "(*HttpServer).writeUnaryCapError" && d == "requestID")
			r.Check(ok, "R-REQID", name+"|"+cs.Callee, u.Pos(cs.Instr.Pos()), "request id argument = "+d, "request id argument is "+d+", not the served request's RequestID")
		}
	}

	// inside the batch writers: the value stamped under the request-id key is the requestID parameter itself
	for _, name := range []string{"writeLogBatch", "writeErrorBatch"} {
		wf := c.Fn("R-REQID", name)
		if wf == nil {
			continue
		}
		found := false
		Instrs(wf, func(in ssa.Instruction) {
			st, ok := in.(*ssa.Store)
			if !ok {
				return
			}
			if s, isC := ConstString(st.Val); !isC || s != "vgi_rpc.request_id" {
				return
			}
			found = true
			var vals []string
			okAll := true
			for _, x := range st.Block().Instrs {
				s2, ok := x.(*ssa.Store)
				if !ok || s2 == st {
					continue
				}
				if ia, ok := s2.Addr.(*ssa.IndexAddr); ok {
					if al, ok := ia.X.(*ssa.Alloc); ok && al.Comment == "varargs" {
						d := u.Describe(s2.Val)
						vals = append(vals, d)
						if d != "requestID" {
							okAll = false
						}
					}
				}
			}
			r.Check(okAll && len(vals) == 1 && u.HasGuardContaining(in, `(requestID != "")`), "R-REQID", name+"|stamped-value", u.Pos(in.Pos()),
				"request-id key carries the caller-supplied requestID parameter", "the value written under vgi_rpc.request_id is {"+strings.Join(vals, ",")+"}, not the requestID parameter: the batch no longer echoes the client's request id")
		})
		if !found {
			r.Undec("R-REQID", name+"|stamped-value", u.Pos(wf.Pos()), "request-id key store not found")
		}
	}

	// R-LOG-FILTER
	if fn := c.Fn("R-LOG-FILTER", "(*CallContext).ClientLog"); fn != nil {
		sts := u.StoresToField(fn, "CallContext", "logs")
		if len(sts) == 0 {
			r.Undec("R-LOG-FILTER", "ClientLog", u.Pos(fn.Pos()), "no append to ctx.logs")
		}
		for _, s := range sts {
			gs := u.GuardStrings(s)
			ok := len(gs) == 1 && gs[0] == "(logLevelPriority(level) <= logLevelPriority(ctx.LogLevel))"
			// no other decision on the way to the append: every branch (or early return) that
			// precedes it must be the priority test or the extras handling
			Instrs(fn, func(in ssa.Instruction) {
				ifi, isIf := in.(*ssa.If)
				if !isIf {
					return
				}
				if _, reach := ReachWithout(fn, in, isInstr(s), nil); !reach {
					return
				}
				d := u.Describe(ifi.Cond)
				if strings.Contains(d, "logLevelPriority(level)") && strings.Contains(d, "logLevelPriority(ctx.LogLevel)") {
					return
				}
				if strings.Contains(d, "extras") || strings.Contains(d, "rangeindex") {
					return
				}
				ok = false
				gs = append(gs, "extra decision: "+d)
			})
			r.Check(ok, "R-LOG-FILTER", "ClientLog|append", u.Pos(s.Pos()), "append conditioned on exactly priority(level) <= priority(requested)",
				"the log append is conditioned on {"+strings.Join(gs, " && ")+"} — it must depend on exactly priority(level) <= priority(ctx.LogLevel): any extra condition drops messages at or above the requested level, a missing one leaks lower levels")
		}
	}
	c.logPriorityTable()

	// R-DRAINLOGS
	for _, name := range []string{"(*Server).serveUnary", "(*HttpServer).handleUnary"} {
		fn := u.Func(name)
		if fn == nil {
			continue
		}
		turn := u.closureCalls(fn, Is("(reflect.Value).Call"))
		dl := u.Calls(fn, Is("(*CallContext).drainLogs"))
		if len(turn) != 1 || len(dl) != 1 {
			r.Undec("R-DRAINLOGS", name, u.Pos(fn.Pos()), "handler closure / drainLogs not found")
			continue
		}
		ok := Dominates(turn[0].Instr, dl[0].Instr)
		_, before := ReachWithout(fn, turn[0].Instr, u.CallMatcher(Is("writeLogBatch", "writeErrorBatch", "WriteUnaryResponse", "WriteVoidResponse"), false), isInstr(dl[0].Instr))
		r.Check(ok && !before, "R-DRAINLOGS", name, u.Pos(dl[0].Instr.Pos()), "logs drained after the handler and before any write", "drainLogs does not sit between the handler call and the first write")
	}
}

func (c *Ctx) logPriorityTable() {
	u, r := c.U, c.R
	decl := u.DeclByName("logLevelPriority")
	if decl == nil {
		r.Undec("R-LOG-FILTER", "logLevelPriority", "-", "does not resolve")
		return
	}
	got := map[string]string{}
	ast.Inspect(decl.Body, func(n ast.Node) bool {
		cc, ok := n.(*ast.CaseClause)
		if !ok || len(cc.List) != 1 || len(cc.Body) == 0 {
			return true
		}
		// the arm's value is what it returns (statements before the return, e.g. a log line, do not matter)
		ret, ok := cc.Body[len(cc.Body)-1].(*ast.ReturnStmt)
		if !ok || len(ret.Results) != 1 {
			return true
		}
		k, ok1 := u.constOf(cc.List[0])
		v, ok2 := u.constOf(ret.Results[0])
		if ok1 && ok2 {
			got[k] = v
		}
		return true
	})
	want := []string{"EXCEPTION", "ERROR", "WARN", "INFO", "DEBUG", "TRACE"}
	ok := len(got) == 6
	prev := -1
	for _, lvl := range want {
		v, has := got[lvl]
		if !has {
			ok = false
			break
		}
		n := 0
		for _, ch := range v {
			n = n*10 + int(ch-'0')
		}
		if n <= prev {
			ok = false
		}
		prev = n
	}
	r.Check(ok, "R-LOG-FILTER", "logLevelPriority|table", u.Pos(decl.Pos()), "six levels, strictly increasing from EXCEPTION to TRACE", "logLevelPriority is not strictly increasing over EXCEPTION<ERROR<WARN<INFO<DEBUG<TRACE")
}

// ---------------------------------------------------------------- C06

func runC06(c *Ctx) {
	u, r := c.U, c.R
	fn := c.Fn("R-ONE-TURN", "(*Server).serveStream")
	if fn == nil {
		return
	}
	nws := u.Calls(fn, HasSuffix("ipc.NewWriter"))
	hdr := u.Calls(fn, Is("(*Server).writeStreamHeader"))
	if len(nws) == 1 && len(hdr) == 1 {
		_, reach := ReachWithout(fn, nws[0].Instr, isInstr(hdr[0].Instr), nil)
		r.Check(!reach && Dominates(hdr[0].Instr, nws[0].Instr) || !reach, "R-HEADER-FIRST", "serveStream", u.Pos(hdr[0].Instr.Pos()), "the header stream can only precede the data stream", "writeStreamHeader is reachable after the output writer was opened")
	} else {
		r.Undec("R-HEADER-FIRST", "serveStream", u.Pos(fn.Pos()), "writer/header call not unique")
	}
	turn := u.closureCalls(fn, Or(HasSuffix("ProducerState.Produce"), HasSuffix("ExchangeState.Exchange")))
	cancel := u.closureCalls(fn, HasSuffix("StreamCanceller.OnCancel"))
	nextM := u.CallMatcher(HasSuffix("ipc.Reader).Next"), false)
	if len(turn) != 1 {
		r.Viol("R-ONE-TURN", "serveStream|turn-site", u.Pos(fn.Pos()), "expected one recover-wrapped Produce/Exchange closure call, found "+itoa(len(turn)))
		return
	}
	t := turn[0]
	// the closure's Produce/Exchange calls are covered
	tfn := t.Common().Value.(*ssa.MakeClosure).Fn.(*ssa.Function)
	for _, cs := range u.Calls(tfn, Or(HasSuffix("ProducerState.Produce"), HasSuffix("ExchangeState.Exchange"))) {
		r.Check(u.CoveredByRecover(cs.Instr), "R-ONE-TURN", "serveStream|"+cs.Callee+"|recover", u.Pos(cs.Instr.Pos()), "turn runs under recover", "state turn is not covered by a deferred recover")
	}
	_, again := ReachWithout(fn, t.Instr, isInstr(t.Instr), nextM)
	r.Check(!again, "R-ONE-TURN", "serveStream|one-turn-per-input", u.Pos(t.Instr.Pos()), "a second turn requires reading another input batch", "Produce/Exchange can run twice for one input batch")
	if len(cancel) == 1 {
		cfn := cancel[0].Common().Value.(*ssa.MakeClosure).Fn.(*ssa.Function)
		ocs := u.Calls(cfn, HasSuffix("StreamCanceller.OnCancel"))
		r.Check(len(ocs) == 1 && u.CoveredByRecover(ocs[0].Instr), "R-CANCEL", "serveStream|OnCancel", u.Pos(cancel[0].Instr.Pos()), "OnCancel at one recover-covered site", "OnCancel not at exactly one recover-covered site")
		_, reach := ReachWithout(fn, cancel[0].Instr, anyInstr(t.Instr, cancel[0].Instr), nil)
		r.Check(!reach, "R-CANCEL", "serveStream|no-turn-after-cancel", u.Pos(cancel[0].Instr.Pos()), "after the cancel hook neither a turn nor a second cancel is reachable", "after OnCancel a Produce/Exchange turn (or a second OnCancel) is still reachable")
		okG := u.HasGuardContaining(cancel[0].Instr, "GetValue(", `"vgi_rpc.cancel"`)
		r.Check(okG, "R-CANCEL", "serveStream|cancel-guard", u.Pos(cancel[0].Instr.Pos()), "cancel hook runs only for a batch carrying the cancel key", "cancel hook not guarded by the cancel metadata key")
		// whatever the state implements, a cancel batch never reaches a turn: from the
		// "cancel key present" edge the turn is unreachable
		Instrs(fn, func(in ssa.Instruction) {
			ifi, ok := in.(*ssa.If)
			if !ok {
				return
			}
			d := u.Describe(ifi.Cond)
			if !strings.Contains(d, `"vgi_rpc.cancel"`) || !strings.HasSuffix(d, "#1") {
				return
			}
			tb := ifi.Block().Succs[0]
			_, reach := ReachWithout(fn, tb.Instrs[0], isInstr(t.Instr), nil)
			r.Check(!reach, "R-CANCEL", "serveStream|cancel-edge-ends-stream", u.Pos(ifi.Pos()), "a batch carrying the cancel key can never be handed to Produce/Exchange", "on the cancel-key-present edge a Produce/Exchange turn is still reachable (e.g. for states without a cancel hook): the cancel batch is processed as input")
		})
		// hook isolation: the recover that contains an OnCancel panic is local to the hook call,
		// so the stream still terminates normally afterwards
		r.Check(cfn.Parent() == fn && len(u.RecoverDefers(cfn)) > 0, "R-CANCEL", "serveStream|hook-isolated", u.Pos(cancel[0].Instr.Pos()), "OnCancel runs in its own recover closure", "OnCancel is not isolated in its own recover closure: a panicking hook skips the rest of the stream termination")
	} else {
		r.Viol("R-CANCEL", "serveStream|OnCancel", u.Pos(fn.Pos()), "expected one OnCancel closure call, found "+itoa(len(cancel)))
	}
	// R-FAIL-ONE-EXC
	dataWrite := u.CallMatcher(HasSuffix("ipc.Writer).Write"), false)
	ebs := u.Calls(fn, Is("writeErrorBatch"))
	r.Floor("R-FAIL-ONE-EXC", 4)
	for i, eb := range ebs {
		_, reach := ReachWithout(fn, eb.Instr, func(in ssa.Instruction) bool {
			return in == t.Instr || dataWrite(in) || (u.CallMatcher(Is("writeErrorBatch"), false)(in))
		}, nil)
		r.Check(!reach, "R-FAIL-ONE-EXC", "serveStream|exception#"+itoa(i+1), u.Pos(eb.Instr.Pos()), "the exception batch ends the stream", "after this exception batch another turn, data write or exception batch is reachable")
	}
	// R-VALIDATE
	vals := u.Calls(fn, Is("(*OutputCollector).validate"))
	if len(vals) == 1 {
		v := vals[0]
		r.Check(u.HasGuardContaining(v.Instr, "!", "Finished("), "R-VALIDATE", "serveStream|validate-unless-finished", u.Pos(v.Instr.Pos()), "validate() runs exactly when the turn did not Finish", "validate() is not guarded by !out.Finished()")
		_, blk := u.ErrBranch(v.Value().(*ssa.Call))
		if blk != nil {
			_, reach := ReachWithout(fn, blk.Instrs[0], dataWrite, nil)
			r.Check(!reach, "R-VALIDATE", "serveStream|invalid-turn-not-flushed", u.Pos(blk.Instrs[0].Pos()), "a turn without a data batch is never flushed", "after validate() failed a data write is still reachable")
		} else {
			r.Viol("R-VALIDATE", "serveStream|validate-err", u.Pos(v.Instr.Pos()), "validate() result is not tested")
		}
		// every path from the turn to a data write passes validate or the Finished()==true edge
		fin := u.Calls(fn, Is("(*OutputCollector).Finished"))
		_, skip := ReachWithout(fn, t.Instr, dataWrite, func(in ssa.Instruction) bool {
			if in == v.Instr {
				return true
			}
			for _, f := range fin {
				if in == f.Instr {
					return true
				}
			}
			return false
		})
		r.Check(!skip, "R-VALIDATE", "serveStream|flush-after-check", u.Pos(t.Instr.Pos()), "flush is reached only through the Finished()/validate() check", "the flush loop is reachable from the turn without consulting Finished()/validate()")
	} else {
		r.Undec("R-VALIDATE", "serveStream", u.Pos(fn.Pos()), "validate call not unique")
	}
	// R-FINISH-EXCHANGE
	if f := c.Fn("R-FINISH-EXCHANGE", "(*OutputCollector).Finish"); f != nil {
		for _, s := range u.StoresToField(f, "OutputCollector", "finished") {
			r.Check(u.HasGuardContaining(s, "o.producerMode") && !u.HasGuardContaining(s, "!o.producerMode"), "R-FINISH-EXCHANGE", "Finish", u.Pos(s.Pos()), "finished set only in producer mode", "Finish() marks an exchange stream finished")
		}
	}
	// R-ONE-DATA
	if f := c.Fn("R-ONE-DATA", "(*OutputCollector).EmitWithMetadata"); f != nil {
		sts := u.StoresToField(f, "OutputCollector", "dataBatchIdx")
		if len(sts) == 0 {
			r.Undec("R-ONE-DATA", "EmitWithMetadata", u.Pos(f.Pos()), "no store to dataBatchIdx")
		}
		for _, s := range sts {
			r.Check(u.HasGuardContaining(s, "o.dataBatchIdx < 0"), "R-ONE-DATA", "EmitWithMetadata", u.Pos(s.Pos()), "a data batch is recorded only when none exists yet", "dataBatchIdx assigned without the dataBatchIdx < 0 guard: two data batches per turn possible")
		}
	}
}

// ---------------------------------------------------------------- C10

func runC10(c *Ctx) {
	u, r := c.U, c.R
	type site struct {
		fn       string
		dispatch func(string) bool
		describe func(string) bool
	}
	sites := []site{
		{"(*Server).serveOne", Is("(*Server).serveUnary", "(*Server).serveStream"), Is("(*Server).serveDescribe")},
		{"(*HttpServer).handleUnary", Is("deserializeParams"), Is("(*HttpServer).handleDescribe")},
		{"(*HttpServer).handleStreamInit", Is("deserializeParams"), nil},
	}
	for _, s := range sites {
		fn := c.Fn("R-GATE-PRESENT", s.fn)
		if fn == nil {
			continue
		}
		var gateIf *ssa.If
		Instrs(fn, func(in ssa.Instruction) {
			if ifi, ok := in.(*ssa.If); ok && strings.HasSuffix(u.Describe(ifi.Cond), ".protocolVersionSet") {
				gateIf = ifi
			}
		})
		chk := u.Calls(fn, Is("(*Server).checkProtocolVersion"))
		if gateIf == nil || len(chk) != 1 {
			r.Viol("R-GATE-PRESENT", s.fn+"|gate", u.Pos(fn.Pos()), "no `if protocolVersionSet { checkProtocolVersion(..) }` gate found on this dispatch path")
			continue
		}
		ck := chk[0]
		// the check runs on the true arm only and reads the protocol-version key
		onTrue := false
		for _, g := range GuardsAt(ck.Instr.Block()) {
			if g.If == gateIf && g.Truth {
				onTrue = true
			}
		}
		if ck.Instr.Block() == gateIf.Block().Succs[0] {
			onTrue = true
		}
		argD := u.Describe(ck.Arg(1)) + " / " + u.Describe(ck.Arg(2))
		r.Check(onTrue && strings.Contains(argD, `"vgi_rpc.protocol_version"`), "R-GATE-PRESENT", s.fn+"|check-args", u.Pos(ck.Instr.Pos()),
			"gate compares the request's vgi_rpc.protocol_version entry: "+argD, "checkProtocolVersion is not applied to the request's vgi_rpc.protocol_version entry under protocolVersionSet: "+argD)
		// with a declared version, EVERY path from the gate to dispatch runs the check (no per-connection / cached bypass)
		for _, d := range u.Calls(fn, s.dispatch) {
			tb := gateIf.Block().Succs[0]
			_, bypass := ReachWithout(fn, tb.Instrs[0], isInstr(d.Instr), isInstr(ck.Instr))
			if tb.Instrs[0] == ck.Instr {
				bypass = false
			}
			r.Check(!bypass, "R-GATE-PRESENT", s.fn+"|no-bypass "+d.Callee, u.Pos(ck.Instr.Pos()), "once a version is declared every path to dispatch runs checkProtocolVersion", "with protocolVersionSet true a path reaches "+d.Callee+" without calling checkProtocolVersion (an extra condition or cached verdict skips the gate)")
		}
		// gate dominates dispatch
		for _, d := range u.Calls(fn, s.dispatch) {
			r.Check(Dominates(gateIf, d.Instr), "R-GATE-PRESENT", s.fn+"|dominates "+d.Callee, u.Pos(d.Instr.Pos()), "dispatch only after the gate decision", d.Callee+" is reachable without passing the protocol-version gate")
			// refusal arm cannot reach dispatch
			_, blk := u.ErrBranch(ck.Value().(*ssa.Call))
			if blk == nil {
				r.Viol("R-GATE-PRESENT", s.fn+"|refusal", u.Pos(ck.Instr.Pos()), "checkProtocolVersion result is not tested")
				continue
			}
			_, reach := ReachWithout(fn, blk.Instrs[0], isInstr(d.Instr), nil)
			_, silent := ReachWithout(fn, blk.Instrs[0], IsReturn, u.CallMatcher(Is("writeErrorResponse", "(*HttpServer).writeHttpError"), false))
			wrote := !silent
			r.Check(!reach && wrote, "R-GATE-PRESENT", s.fn+"|refusal→"+d.Callee, u.Pos(blk.Instrs[0].Pos()), "refusal writes an error and never dispatches", "after a version refusal dispatch is still reachable, or no error is written")
		}
		if s.describe != nil {
			for _, d := range u.Calls(fn, s.describe) {
				_, reach := ReachWithout(fn, gateIf, isInstr(d.Instr), nil)
				r.Check(!reach && !Dominates(gateIf, d.Instr), "R-DESCRIBE-EXEMPT", s.fn, u.Pos(d.Instr.Pos()), "__describe__ is answered before the gate", "__describe__ responder sits behind the protocol-version gate")
			}
		}
	}
	// R-GATE-KIND
	if f := c.Fn("R-GATE-KIND", "(*ProtocolVersionError).ErrorKind"); f != nil {
		ok := false
		Instrs(f, func(in ssa.Instruction) {
			if ret, isR := in.(*ssa.Return); isR {
				if s, isC := ConstString(ret.Results[0]); isC && s == "protocol_version_mismatch" {
					ok = true
				}
			}
		})
		r.Check(ok, "R-GATE-KIND", "ProtocolVersionError.ErrorKind", u.Pos(f.Pos()), "constant protocol_version_mismatch", "ErrorKind() is not the constant protocol_version_mismatch")
	}
	// R-SEMVER / R-DIRECTION on the table of component orderings (shape-independent); the
	// shape-specific forms below judge the function only when the table cannot be built
	tableDone := c10VersionTable(c)
	// R-SEMVER
	if f := c.Fn("R-SEMVER", "(*Server).checkProtocolVersion"); f != nil && !tableDone {
		Instrs(f, func(in ssa.Instruction) {
			ret, ok := in.(*ssa.Return)
			if !ok {
				return
			}
			if cst, isC := ret.Results[0].(*ssa.Const); !isC || cst.Value != nil {
				return
			}
			gs := strings.Join(u.GuardStrings(in), " && ")
			okG := strings.Contains(gs, "(parseSemver(clientVersion)#0 == &s.protocolVersionParts[0])") && strings.Contains(gs, "(parseSemver(clientVersion)#1 == &s.protocolVersionParts[1])") &&
				strings.Contains(gs, "parseSemver(clientVersion)#3 == nil") && strings.Contains(gs, "present")
			r.Check(okG, "R-SEMVER", "checkProtocolVersion|admit", u.Pos(in.Pos()), "admits only present ∧ parsed ∧ major== ∧ minor==", "checkProtocolVersion admits under guards: "+gs)
		})
	}
	// R-DIRECTION: "client is too old" is chosen exactly under major < serverMajor ∨ (major == serverMajor ∧ minor < serverMinor)
	if f := u.Func("(*Server).checkProtocolVersion"); f != nil && !tableDone {
		found := false
		Instrs(f, func(in ssa.Instruction) {
			// the block whose computed message contains the client-too-old text
			b, ok := in.(*ssa.BinOp)
			if !ok || b.Op != token.ADD {
				return
			}
			s, isC := ConstString(b.X)
			if !isC || !strings.Contains(s, "client is too old") {
				return
			}
			found = true
			blk := in.Block()
			var preds []string
			okD := len(blk.Preds) == 2
			for _, p := range blk.Preds {
				ifi, isIf := p.Instrs[len(p.Instrs)-1].(*ssa.If)
				if !isIf || p.Succs[0] != blk {
					okD = false
					continue
				}
				cd := u.Describe(ifi.Cond)
				gd := strings.Join(u.GuardStrings(ifi), " && ")
				preds = append(preds, cd+" under "+gd)
				isMajor := strings.Contains(cd, "parseSemver(clientVersion)#0 < ") && strings.Contains(cd, "protocolVersionParts[0]")
				isMinor := strings.Contains(cd, "parseSemver(clientVersion)#1 < ") && strings.Contains(cd, "protocolVersionParts[1]") &&
					strings.Contains(gd, "(parseSemver(clientVersion)#0 == &s.protocolVersionParts[0])")
				if !isMajor && !isMinor {
					okD = false
				}
			}
			r.Check(okD, "R-DIRECTION", "checkProtocolVersion|client-too-old", u.Pos(in.Pos()), "client named as the side to upgrade exactly when major < server ∨ (major == server ∧ minor < server)",
				"the 'client is too old' message is chosen under {"+strings.Join(preds, " | ")+"}: for some version pairs the message names the wrong side")
		})
		if !found {
			r.Undec("R-DIRECTION", "checkProtocolVersion", u.Pos(f.Pos()), "directional message constant not found")
		}
	}
	// R-SEMVER-REGEX: the admission pattern is the canonical-semver language on a decision table
	if pat, ok := c.globalRegexPattern("semverRegex"); ok {
		re, err := regexp.Compile(pat)
		if err != nil {
			r.Undec("R-SEMVER-REGEX", "semverRegex", "-", "pattern does not compile: "+err.Error())
		} else {
			accept := []string{"0.0.0", "1.2.3", "10.20.30", "1.0.0", "0.1.0", "123456789.0.99"}
			reject := []string{"", "1", "1.2", "1.2.3.4", "01.2.3", "1.02.3", "1.2.03", "00.0.0", "1.2.3-rc1", "1.2.3+build", "v1.2.3", " 1.2.3", "1.2.3 ", "1.2.3\n", "1..3", "-1.2.3", "+1.2.3", "1.2.x", "1,2,3", "١.٢.٣", "1.2.3\x00"}
			var bad []string
			for _, s := range accept {
				if !re.MatchString(s) {
					bad = append(bad, "rejects canonical "+strconv.Quote(s))
				}
			}
			for _, s := range reject {
				if re.MatchString(s) {
					bad = append(bad, "admits "+strconv.Quote(s))
				}
			}
			r.Check(len(bad) == 0, "R-SEMVER-REGEX", "semverRegex|decision-table", "-", "pattern "+pat+" decides "+itoa(len(accept)+len(reject))+" table entries as canonical MAJOR.MINOR.PATCH requires",
				"the version pattern "+pat+" "+strings.Join(bad, ", ")+": non-canonical versions pass (or canonical ones fail) the gate")
		}
	} else {
		r.Undec("R-SEMVER-REGEX", "semverRegex", "-", "pattern constant not found")
	}
	if f := c.Fn("R-SEMVER", "parseSemver"); f != nil {
		for _, cs := range u.Calls(f, Is("strconv.Atoi")) {
			e := ExtractOf(cs.Value().(*ssa.Call), 1)
			used := e != nil && e.Referrers() != nil && len(*e.Referrers()) > 0
			r.Check(used, "R-SEMVER", "parseSemver|Atoi-error#"+u.Describe(cs.Arg(0)), u.Pos(cs.Instr.Pos()), "conversion error is consulted", "strconv.Atoi's error is discarded: the regex admits unbounded digit strings, so two different ≥20-digit components both become MaxInt and compare equal")
		}
	}
}

// ---------------------------------------------------------------- C36

func runC36(c *Ctx) {
	u, r := c.U, c.R
	seedfixC36(c)
	r.Floor("R-FREE-PAIR", 2)
	for _, name := range []string{"(*Server).serveOne", "(*Server).serveStream"} {
		fn := c.Fn("R-FREE-PAIR", name)
		if fn == nil {
			continue
		}
		for _, rs := range u.Calls(fn, Is("ResolveShmBatch")) {
			call := rs.Value().(*ssa.Call)
			ok := false
			for _, fo := range u.Calls(fn, Is("(*ShmSegment).FreeOffset")) {
				sameSeg := u.Describe(fo.Arg(0)) == u.Describe(rs.Arg(1))
				off := u.Describe(fo.Arg(1))
				if sameSeg && strings.HasSuffix(off, "#1") && rootCall(fo.Arg(1)) == call && u.GuardedErrNilOf(fo.Instr, call) && u.HasGuardContaining(fo.Instr, "ResolveShmBatch(", "#2") {
					ok = true
				}
			}
			r.Check(ok, "R-FREE-PAIR", name, u.Pos(rs.Instr.Pos()), "resolved slot is freed on the same segment under release ∧ err == nil", "a resolved shared-memory slot is not released with FreeOffset(releaseOff) on the same segment")
		}
	}
	if fn := u.Func("(*Server).serveOne"); fn != nil {
		okE := false
		for _, cs := range u.Calls(fn, Is("writeErrorResponse")) {
			if u.HasGuardContaining(cs.Instr, "IsShmPointerBatch(req.Batch)") {
				okE = true
			}
		}
		r.Check(okE, "R-NO-SEGMENT-ERROR", "serveOne|request-batch", u.Pos(fn.Pos()), "an unresolved pointer request batch is answered with an error", "a pointer request batch with no segment is not answered with an error")
		// R-SEGMENT-SCOPE
		for _, s := range u.StoresToField(fn, "Request", "Shm") {
			okS := len(s.Block().Preds) > 0
			for _, p := range s.Block().Preds {
				ifi, isIf := p.Instrs[len(p.Instrs)-1].(*ssa.If)
				if !isIf || p.Succs[0] != s.Block() {
					okS = false
					continue
				}
				d := u.Describe(ifi.Cond)
				if !(strings.Contains(d, `"vgi_rpc.shm_segment_name"`) || strings.Contains(d, "IsShmPointerBatch(")) {
					okS = false
				}
			}
			r.Check(okS, "R-SEGMENT-SCOPE", "serveOne|req.Shm", u.Pos(s.Pos()), "segment exposed only when advertised or referenced on this request", "req.Shm is set on a path where the client neither advertised the segment nor sent a pointer batch")
		}
	}
	if fn := u.Func("(*Server).serveStream"); fn != nil {
		okE := false
		for _, cs := range u.Calls(fn, Is("writeErrorBatch")) {
			if u.HasGuardContaining(cs.Instr, "IsShmPointerBatch(") && u.HasGuardContaining(cs.Instr, "req.Shm == nil") {
				okE = true
			}
		}
		r.Check(okE, "R-NO-SEGMENT-ERROR", "serveStream|input-batch", u.Pos(fn.Pos()), "a pointer input batch with no segment ends the stream with an error", "a stream input pointer batch on a connection with no segment is handed to Produce/Exchange instead of being answered with an error")
	}
}

// ---------------------------------------------------------------- C37

func runC37(c *Ctx) {
	u, r := c.U, c.R
	if fn := c.Fn("R-PIPE-PAIR", "(*Server).serveOne"); fn != nil {
		st := u.closureCalls(fn, HasSuffix("DispatchHook.OnDispatchStart"))
		en := u.closureCalls(fn, HasSuffix("DispatchHook.OnDispatchEnd"))
		if len(st) != 1 || len(en) != 1 {
			r.Viol("R-PIPE-PAIR", "serveOne", u.Pos(fn.Pos()), "expected one start and one end hook closure")
		} else {
			isActiveIf := func(in ssa.Instruction) bool {
				ifi, ok := in.(*ssa.If)
				return ok && u.Describe(ifi.Cond) == "hookActive"
			}
			_, escape := ReachWithout(fn, st[0].Instr, IsReturn, isActiveIf)
			r.Check(!escape, "R-PIPE-PAIR", "serveOne|no-return-between", u.Pos(st[0].Instr.Pos()), "every path from hook start to return passes the hookActive test", "a return lies between the start hook and the end hook: end is skipped")
			r.Check(u.HasGuardContaining(en[0].Instr, "hookActive") && !u.HasGuardContaining(en[0].Instr, "!hookActive"), "R-PIPE-PAIR", "serveOne|end-iff-active", u.Pos(en[0].Instr.Pos()), "end runs exactly when start completed", "end hook not guarded by hookActive")
			for _, cs := range [](CallSite){st[0], en[0]} {
				cf := cs.Common().Value.(*ssa.MakeClosure).Fn.(*ssa.Function)
				for _, hc := range u.Calls(cf, Or(HasSuffix("DispatchHook.OnDispatchStart"), HasSuffix("DispatchHook.OnDispatchEnd"))) {
					r.Check(u.CoveredByRecover(hc.Instr), "R-PIPE-PAIR", "serveOne|"+hc.Callee+"|recover", u.Pos(hc.Instr.Pos()), "hook call under recover", "hook call is not covered by recover")
					if strings.HasSuffix(hc.Callee, "OnDispatchStart") {
						// hookActive = true stored after the call
						okA := false
						Instrs(cf, func(in ssa.Instruction) {
							if s, ok := in.(*ssa.Store); ok && u.Describe(s.Addr) == "hookActive" || ok && strings.Contains(u.Describe(s.Addr), "hookActive") {
								if Dominates(hc.Instr, in) {
									okA = true
								}
							}
						})
						r.Check(okA, "R-PIPE-PAIR", "serveOne|active-after-start", u.Pos(hc.Instr.Pos()), "hookActive set only after start returned normally", "hookActive is set before OnDispatchStart returned: a panicking start still gets an end")
					}
				}
			}
			// dispatch happens between start and end
			for _, d := range u.Calls(fn, Is("(*Server).serveUnary", "(*Server).serveStream")) {
				r.Check(Dominates(st[0].Instr.(ssa.Instruction), d.Instr) || u.HasGuardContaining(d.Instr, "") && reachable(fn, st[0].Instr, d.Instr), "R-PIPE-PAIR", "serveOne|dispatch-after-start "+d.Callee, u.Pos(d.Instr.Pos()), "dispatch follows the start hook", "dispatch can run before the start hook")
			}
		}
	}
	// HTTP
	r.Floor("R-HTTP-DEFER", 3)
	for _, name := range []string{"(*HttpServer).handleUnary", "(*HttpServer).handleStreamInit", "(*HttpServer).handleStreamExchange"} {
		fn := c.Fn("R-HTTP-DEFER", name)
		if fn == nil {
			continue
		}
		sh := u.Calls(fn, Is("(*HttpServer).startDispatchHook"))
		if len(sh) != 1 {
			r.Viol("R-HTTP-DEFER", name, u.Pos(fn.Pos()), "expected one startDispatchHook call")
			continue
		}
		call := sh[0].Value().(*ssa.Call)
		cleanup := ExtractOf(call, 1)
		isDefer := func(in ssa.Instruction) bool {
			d, ok := in.(*ssa.Defer)
			return ok && d.Call.Value == cleanup
		}
		anyCallOrRet := func(in ssa.Instruction) bool {
			if _, ok := in.(*ssa.Return); ok {
				return true
			}
			if _, ok := in.(*ssa.Defer); ok {
				return false
			}
			_, ok := in.(ssa.CallInstruction)
			return ok
		}
		_, bad := ReachWithout(fn, sh[0].Instr, anyCallOrRet, isDefer)
		r.Check(cleanup != nil && !bad, "R-HTTP-DEFER", name, u.Pos(sh[0].Instr.Pos()), "cleanup deferred immediately after the hook starts", "the hook's cleanup is not deferred before the next call/return: an early exit skips OnDispatchEnd")
		// the handlerErr alloc passed to the hook
		var errAlloc ssa.Value = sh[0].Arg(4)
		c.errIffErrorResponse(fn, sh[0].Instr, errAlloc)
	}
	// the HTTP hook plumbing: start and end calls recover-covered (recover called directly by the deferred function)
	if sd := c.Fn("R-HTTP-HOOK-RECOVER", "(*HttpServer).startDispatchHook"); sd != nil {
		nh := 0
		InstrsDeep(sd, func(g *ssa.Function, in ssa.Instruction) {
			ci, ok := in.(ssa.CallInstruction)
			if !ok {
				return
			}
			n := u.CalleeName(ci.Common())
			if !strings.HasSuffix(n, "DispatchHook.OnDispatchStart") && !strings.HasSuffix(n, "DispatchHook.OnDispatchEnd") {
				return
			}
			nh++
			r.Check(u.CoveredByRecover(in), "R-HTTP-HOOK-RECOVER", "startDispatchHook|"+n, u.Pos(in.Pos()), "hook call runs under a deferred function that calls recover() itself", "the hook call is not under a deferred function that calls recover() directly (recover() in a helper called from the deferred closure returns nil): a panicking hook escapes the HTTP handler and aborts the response")
		})
		if nh != 2 {
			r.Undec("R-HTTP-HOOK-RECOVER", "startDispatchHook", u.Pos(sd.Pos()), "expected one start and one end hook call")
		}
	}
	// converse direction: once handlerErr holds a definite error the client is not sent a success response
	for _, name := range []string{"(*HttpServer).handleUnary", "(*HttpServer).handleStreamInit", "(*HttpServer).handleStreamExchange"} {
		fn := u.Func(name)
		if fn == nil {
			continue
		}
		sh := u.Calls(fn, Is("(*HttpServer).startDispatchHook"))
		if len(sh) != 1 {
			continue
		}
		errAlloc := sh[0].Arg(4)
		ok200 := func(in ssa.Instruction) bool {
			cs, ok := in.(*ssa.Call)
			if !ok || u.CalleeName(&cs.Call) != "(*HttpServer).writeArrow" {
				return false
			}
			k, isC := ConstInt(cs.Call.Args[2])
			return isC && k == 200
		}
		k := 0
		Instrs(fn, func(in ssa.Instruction) {
			st, ok := in.(*ssa.Store)
			if !ok || st.Addr != errAlloc {
				return
			}
			if cst, isC := st.Val.(*ssa.Const); isC && cst.Value == nil {
				return
			}
			// IPC serialisation failures into the response buffer are reported although the (possibly short) body still goes out
			if call := rootCall(st.Val); call != nil {
				cn := u.CalleeName(&call.Call)
				if cn == "WriteUnaryResponse" || cn == "WriteVoidResponse" || cn == "writeStateTokenBatch" || strings.HasSuffix(cn, "ipc.Writer).Close") || cn == "(*HttpServer).runProduceLoopCapped" || cn == "(*HttpServer).runProduceLoop" {
					return
				}
			}
			k++
			_, reach := ReachWithout(fn, in, ok200, func(x ssa.Instruction) bool {
				s2, ok := x.(*ssa.Store)
				return ok && s2.Addr == errAlloc && x != in
			})
			r.Check(!reach, "R-ERR-ONLY-IF-ERROR-RESPONSE", name+"|store "+u.Describe(st.Val), u.Pos(in.Pos()), "after this error is recorded no success response is written", "handlerErr is set to "+u.Describe(st.Val)+" and the handler then answers with a plain 200 success: OnDispatchEnd is told the call failed although the client got its result")
		})
		if k == 0 {
			r.Undec("R-ERR-ONLY-IF-ERROR-RESPONSE", name, u.Pos(fn.Pos()), "no handlerErr assignments found")
		}
	}
	// continuation helpers: after an error write they return non-nil
	for _, name := range []string{"(*HttpServer).handleExchangeCall", "(*HttpServer).handleProducerContinuation"} {
		fn := c.Fn("R-ERR-IFF-ERROR-RESPONSE", name)
		if fn == nil {
			continue
		}
		for _, cs := range u.Calls(fn, errorWrite(u)) {
			// every return reachable from here returns a non-nil-constant error
			bad := false
			Instrs(fn, func(in ssa.Instruction) {
				ret, ok := in.(*ssa.Return)
				if !ok {
					return
				}
				if _, reach := ReachWithout(fn, cs.Instr, isInstr(in), nil); !reach {
					return
				}
				if cst, isC := ret.Results[0].(*ssa.Const); isC && cst.Value == nil {
					bad = true
				}
			})
			r.Check(!bad, "R-ERR-IFF-ERROR-RESPONSE", name+"|"+cs.Callee, u.Pos(cs.Instr.Pos()), "an error response is reported to the caller as a non-nil error", "after writing an error response the helper can return nil: the end hook sees success")
		}
	}
}

// streamPredicateTable: the MethodType constants serveOne dispatches to
// serveStream are exactly those methodTypeString renders as "stream".
func (c *Ctx) streamPredicateTable(serveOne *ssa.Function) {
	u, r := c.U, c.R
	dispatch := map[string]bool{}
	if decl := u.Decl(serveOne); decl != nil {
		ast.Inspect(decl.Body, func(n ast.Node) bool {
			cc, ok := n.(*ast.CaseClause)
			if !ok {
				return true
			}
			callsStream := false
			ast.Inspect(cc, func(m ast.Node) bool {
				if ce, ok := m.(*ast.CallExpr); ok {
					if se, ok := ce.Fun.(*ast.SelectorExpr); ok && se.Sel.Name == "serveStream" {
						callsStream = true
					}
				}
				return true
			})
			if callsStream {
				for _, e := range cc.List {
					if v, ok := u.constOf(e); ok {
						dispatch[v] = true
					}
				}
			}
			return true
		})
	}
	// methodTypeString: evaluate it on every declared MethodType constant by following its
	// comparisons against constants (if-chains and switches both lower to t == K tests)
	rendered := map[string]bool{}
	if mf := u.Func("methodTypeString"); mf != nil {
		scope := u.Root.Types.Scope()
		for _, n := range scope.Names() {
			cst, ok := scope.Lookup(n).(*types.Const)
			if !ok || typeShort(cst.Type()) != "MethodType" {
				continue
			}
			k := cst.Val().ExactString()
			// walk the CFG deciding each `t == K'` test
			b := mf.Blocks[0]
			for steps := 0; steps < 50 && b != nil; steps++ {
				last := b.Instrs[len(b.Instrs)-1]
				switch x := last.(type) {
				case *ssa.Return:
					if s, ok := ConstString(x.Results[0]); ok && s == "stream" {
						rendered[k] = true
					}
					b = nil
				case *ssa.If:
					bo, ok := x.Cond.(*ssa.BinOp)
					if !ok || bo.X != ssa.Value(mf.Params[0]) {
						b = nil
						break
					}
					kk, _ := ConstInt(bo.Y)
					eq := itoa(int(kk)) == k
					if bo.Op == token.NEQ {
						eq = !eq
					}
					if eq {
						b = b.Succs[0]
					} else {
						b = b.Succs[1]
					}
				case *ssa.Jump:
					b = b.Succs[0]
				default:
					b = nil
				}
			}
		}
	}
	var a, b []string
	for k := range dispatch {
		a = append(a, k)
	}
	for k := range rendered {
		b = append(b, k)
	}
	sort.Strings(a)
	sort.Strings(b)
	r.Check(len(a) >= 2 && strings.Join(a, ",") == strings.Join(b, ","), "R-GATE-DRAIN", "stream-predicate-table", u.Pos(serveOne.Pos()),
		"MethodType values dispatched to serveStream {"+strings.Join(a, ",")+"} = values rendered \"stream\"", "serveOne dispatches MethodType {"+strings.Join(a, ",")+"} to serveStream but methodTypeString renders {"+strings.Join(b, ",")+"} as \"stream\": the stream predicate used by the refusal drain and the hooks disagrees with the dispatcher")
}

func reachable(fn *ssa.Function, from, to ssa.Instruction) bool {
	_, ok := ReachWithout(fn, from, isInstr(to), nil)
	return ok
}

// errorWrite matches calls that put an error-signalling response on the wire.
func errorWrite(u *Unit) func(string) bool {
	return Is("(*HttpServer).writeHttpError", "(*HttpServer).writeUnaryCapError", "(*HttpServer).writeExchangeCapError", "(*HttpServer).writeBodyReadError")
}

func (c *Ctx) errIffErrorResponse(fn *ssa.Function, hookStart ssa.Instruction, errAlloc ssa.Value) {
	u, r := c.U, c.R
	name := shortName(fn)
	storesTo := func(in ssa.Instruction) bool {
		s, ok := in.(*ssa.Store)
		if !ok || s.Addr != errAlloc {
			return false
		}
		if cst, isC := s.Val.(*ssa.Const); isC && cst.Value == nil {
			return false
		}
		return true
	}
	n := 0
	check := func(cs CallSite, what string) {
		if !Dominates(hookStart, cs.Instr) {
			return
		}
		n++
		ok := false
		// (a) guarded by handlerErr != nil
		for _, g := range GuardsAt(cs.Instr.Block()) {
			if x, isNil, k := nilCompare(g); k && !isNil {
				if ld, isLd := x.(*ssa.UnOp); isLd && ld.X == errAlloc {
					ok = true
				}
			}
		}
		// (b) a non-nil store to handlerErr earlier in the same block, or in a block that dominates this one
		// and is itself inside the same innermost guarded region (same guard set)
		if !ok {
			Instrs(fn, func(in ssa.Instruction) {
				if storesTo(in) && Dominates(in, cs.Instr) && DefinitelyNonNilStore(in.(*ssa.Store)) {
					ok = true
				}
			})
		}
		r.Check(ok, "R-ERR-IFF-ERROR-RESPONSE", name+"|"+what, u.Pos(cs.Instr.Pos()),
			"error response reported to the end hook through handlerErr", "this error-signalling response is written while handlerErr is still nil: OnDispatchEnd is told the call succeeded")
	}
	k := 0
	for _, cs := range u.Calls(fn, errorWrite(u)) {
		k++
		check(cs, cs.Callee+"#"+itoa(k))
	}
	for _, cs := range u.Calls(fn, Is("(*HttpServer).writeArrow")) {
		if v, ok := ConstInt(cs.Arg(2)); ok && v >= 400 {
			k++
			check(cs, "writeArrow("+itoa(int(v))+")#"+itoa(k))
		}
	}
	if n == 0 {
		r.Undec("R-ERR-IFF-ERROR-RESPONSE", name, u.Pos(fn.Pos()), "no error writes found after the hook start")
	}
	_ = token.NoPos
}
