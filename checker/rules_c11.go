package main

import (
	"go/token"
	"sort"
	"strings"

	"golang.org/x/tools/go/ssa"
)

func init() {
	register(&PropInfo{
		ID:    "C11",
		Title: "A stream behaves the same over HTTP as over a pipe",
		Explanation: "Sibling agreement of the structural steps of the pipe stream loop (serveStream) and the HTTP stream routes. " +
			"R-CAST-SOURCES: every schema source that can reach the target of castRecordBatch for exchange input on the pipe (methodInfo.InputSchema, StreamResult.InputSchema) also reaches a cast target on the HTTP continuation route, through the sealed call token where the route has no StreamResult; each cast runs under !Schema().Equal(target) and a cast failure is answered with an error. " +
			"R-TOKEN-SCHEMA: on the continuation route a dynamic method's output schema derives from StreamResult.OutputSchema (through the call token). R-MODE: serveStream, handleStreamInit and handleStreamExchange decide producer/exchange with the same predicate (dynamic: the state implements ProducerState; static: the registered method type). " +
			"R-COLLECTOR-MODE: the collector is created in the mode of that predicate on every path (HTTP exchange: false, HTTP produce loop: true, pipe: the predicate itself) and the HTTP exchange/producer handlers are reached only on the matching branch. " +
			"R-VALIDATE-FINISH: on all three flush loops nothing is flushed before `validate()==nil ∨ Finished()`, and a validate failure leads to an error batch, never to the flush. R-FLUSH-CLASS: the HTTP flush loops classify the data batch by its collector index (dataBatchIdx), so annotated data batches count toward the batch limit and carry the token; user metadata of the data batch stays beneath the token. " +
			"R-BATCH-LIMIT: the produce loop hands over to a continuation ((false,nil)) only after a complete flush cycle, under the batch-limit or wire-cap condition, and ends ((true,nil)) only on Finished() or a cancelled context.",
		NotCovered:  []string{"the behavioural equivalence itself (values, log order, error text)", "static methods whose StreamResult.OutputSchema differs from the registered output schema", "compression and multi-instance routing (C17, C12–C15 cover their mechanisms)"},
		Assumptions: []string{},
		Run:         runC11,
	})
}

func schemaFieldOrigins(u *Unit, v ssa.Value, suffix string) []string {
	os := u.Origins(v, &OriginOpts{Through: map[string][]int{"deserializeSchema": {0}, "serializeSchema": {0}}})
	set := map[string]bool{}
	for _, o := range os {
		if o.Kind == "field" && strings.HasSuffix(o.Desc, suffix) {
			set[o.Desc] = true
		}
	}
	var out []string
	for k := range set {
		out = append(out, k)
	}
	sort.Strings(out)
	return out
}

func runC11(c *Ctx) {
	u, r := c.U, c.R
	seedfixC11(c)
	G := func(in ssa.Instruction) string { return strings.Join(u.GuardStrings(in), " && ") }
	pipe := c.Fn("R-CAST-SOURCES", "(*Server).serveStream")
	hx := c.Fn("R-CAST-SOURCES", "(*HttpServer).handleStreamExchange")
	hi := c.Fn("R-MODE", "(*HttpServer).handleStreamInit")
	if pipe == nil || hx == nil || hi == nil {
		return
	}
	// ---- R-CAST-SOURCES
	castSources := func(fn *ssa.Function, inst string) map[string]bool {
		set := map[string]bool{}
		casts := u.Calls(fn, Is("castRecordBatch"))
		for i, cs := range casts {
			for _, f := range schemaFieldOrigins(u, cs.Arg(1), ".InputSchema") {
				set[f] = true
			}
			// guarded by a schema inequality on the same target
			g := G(cs.Instr)
			okG := strings.Contains(g, "!(*github.com/apache/arrow-go/v18/arrow.Schema).Equal(")
			r.Check(okG, "R-CAST-SOURCES", inst+"|cast#"+itoa(i)+"|only-when-different", u.Pos(cs.Instr.Pos()), "cast only when the wire schema differs from the declaration", "cast runs under ["+g+"]")
			// failure answered with an error
			call, _ := cs.Instr.(*ssa.Call)
			if call != nil {
				_, eb := u.ErrBranch(call)
				okE := false
				if eb != nil {
					for _, x := range u.CallsInBlockChain(eb) {
						if x.Callee == "writeErrorBatch" || x.Callee == "(*HttpServer).writeHttpError" {
							okE = true
						}
					}
				}
				r.Check(okE, "R-CAST-SOURCES", inst+"|cast#"+itoa(i)+"|failure-reported", u.Pos(cs.Instr.Pos()), "cast failure answered with an error", "a cast failure is not answered with an error batch / HTTP error")
			}
		}
		if len(casts) == 0 {
			r.Viol("R-CAST-SOURCES", inst+"|cast", u.Pos(fn.Pos()), "no castRecordBatch on the "+inst+" exchange path")
		}
		return set
	}
	ps := castSources(pipe, "pipe")
	hs := castSources(hx, "http")
	var pk []string
	for k := range ps {
		pk = append(pk, k)
	}
	sort.Strings(pk)
	r.Check(len(pk) >= 2, "R-CAST-SOURCES", "pipe|sources", u.Pos(pipe.Pos()), "pipe cast targets come from "+strings.Join(pk, ", "), "pipe cast target sources not recognised: "+strings.Join(pk, ", "))
	for _, k := range pk {
		r.Check(hs[k], "R-CAST-SOURCES", "http⊇pipe|"+k, u.Pos(hx.Pos()), k+" reaches a cast target on the HTTP continuation route", "the pipe casts exchange input to "+k+" but the HTTP continuation route never consults it: a castable input is cast on the pipe and handed to the state uncast over HTTP")
	}
	// ---- R-TOKEN-SCHEMA
	for _, name := range []string{"(*HttpServer).handleExchangeCall", "(*HttpServer).handleProducerContinuation"} {
		for _, cs := range u.Calls(hx, Is(name)) {
			idx := 5
			if name == "(*HttpServer).handleProducerContinuation" {
				idx = 3
			}
			fs := schemaFieldOrigins(u, cs.Arg(idx), ".OutputSchema")
			has := map[string]bool{}
			for _, f := range fs {
				has[f] = true
			}
			r.Check(has["StreamResult.OutputSchema"] && has["methodInfo.OutputSchema"], "R-TOKEN-SCHEMA", strings.TrimPrefix(name, "(*HttpServer)."), u.Pos(cs.Instr.Pos()), "continuation output schema ∈ {registered, StreamResult's via the call token}", "continuation output schema derives only from "+strings.Join(fs, ", ")+": a dynamic method's schema is lost after /init")
		}
	}
	for _, ds := range u.Calls(hx, Is("deserializeSchema")) {
		if strings.HasSuffix(u.Describe(ds.Arg(0)), ".SchemaIPC") {
			dyn, _ := u.ConstValue("MethodDynamic")
			r.Check(dyn != "" && u.HasGuardContaining(ds.Instr, ".Type == "+dyn+")"), "R-TOKEN-SCHEMA", "dynamic-branch", u.Pos(ds.Instr.Pos()), "token schema used for dynamic methods", "token output schema consulted under ["+G(ds.Instr)+"]")
		}
	}
	// ---- R-MODE
	modeOf := func(fn *ssa.Function) string {
		var edges []string
		classify := func(v ssa.Value, g string) string {
			d := u.Describe(v)
			if i := strings.Index(d, ".Type == "); i >= 0 {
				d = "(info" + d[i:]
			}
			if k, isC := v.(*ssa.Const); isC && k.Value != nil {
				switch {
				case strings.Contains(g, "assertok:ProducerState(") && !strings.Contains(g, "!assertok:ProducerState("):
					d += "@implements-ProducerState"
				case strings.Contains(g, "!assertok:ProducerState("):
					d += "@not-ProducerState"
				default:
					d += "@?" + g
				}
			}
			return d
		}
		Instrs(fn, func(in ssa.Instruction) {
			// captured by a closure: the variable lives in an alloc
			if st, ok := in.(*ssa.Store); ok {
				if al, isA := st.Addr.(*ssa.Alloc); isA && u.VarName(al) == "isProducer" {
					if k, isC := st.Val.(*ssa.Const); isC && k.Value != nil && k.Value.String() == "false" && len(u.GuardStrings(in)) == 0 {
						return // zero initialisation
					}
					edges = append(edges, classify(st.Val, strings.Join(u.GuardStrings(in), " && ")))
				}
			}
			if p, ok := in.(*ssa.Phi); ok && u.VarName(p) == "isProducer" {
				for i, e := range p.Edges {
					pred := p.Block().Preds[i]
					g := ""
					if len(pred.Instrs) > 0 {
						g = strings.Join(u.GuardStrings(pred.Instrs[0]), " && ")
					}
					edges = append(edges, classify(e, g))
				}
				return
			}
		})
		sort.Strings(edges)
		var dd []string
		for i, e := range edges {
			if i == 0 || e != edges[i-1] {
				dd = append(dd, e)
			}
		}
		return strings.Join(dd, " | ")
	}
	ref := modeOf(pipe)
	// the decision table of isProducer over (method type, state implements ProducerState),
	// independent of how the if/switch chain is written
	modeTable := func(fn *ssa.Function) string {
		var rows []string
		for _, tn := range []string{"MethodProducer", "MethodExchange", "MethodDynamic"} {
			kv, _ := u.ConstValue(tn)
			for _, impl := range []bool{true, false} {
				w := &boolWalk{u: u, fn: fn,
					isVar: func(v ssa.Value) bool {
						switch v.(type) {
						case *ssa.Phi, *ssa.Alloc:
							return u.VarName(v) == "isProducer"
						}
						return false
					},
					oracle: func(v ssa.Value) (bool, bool) {
						switch y := v.(type) {
						case *ssa.Extract:
							if ta, ok := y.Tuple.(*ssa.TypeAssert); ok && ta.CommaOk && y.Index == 1 && strings.HasSuffix(typeShort(ta.AssertedType), "ProducerState") {
								return impl, true
							}
						case *ssa.BinOp:
							if y.Op == token.EQL || y.Op == token.NEQ {
								for _, pr := range [][2]ssa.Value{{y.X, y.Y}, {y.Y, y.X}} {
									k, isK := pr[1].(*ssa.Const)
									if isK && k.Value != nil && strings.HasSuffix(u.Describe(pr[0]), ".Type") {
										return (k.Value.String() == kv) == (y.Op == token.EQL), true
									}
								}
							}
						}
						return false, false
					}}
				rows = append(rows, tn+"/"+boolStr(impl)+"→"+strings.Join(w.finalValues(), ","))
			}
		}
		return strings.Join(rows, "; ")
	}
	wantTable := "MethodProducer/true→true; MethodProducer/false→true; MethodExchange/true→false; MethodExchange/false→false; MethodDynamic/true→true; MethodDynamic/false→false"
	refT := modeTable(pipe)
	r.Check(refT == wantTable || (strings.Contains(ref, "@implements-ProducerState") && strings.Contains(ref, "info.Type ==")), "R-MODE", "pipe|predicate", u.Pos(pipe.Pos()), "isProducer = "+ref, "pipe mode predicate not recognised: "+ref+" (table: "+refT+")")
	for _, f := range []*ssa.Function{hi, hx} {
		m := modeOf(f)
		t := modeTable(f)
		r.Check(m == ref || (t == refT && refT == wantTable), "R-MODE", shortName(f)+"|same-predicate", u.Pos(f.Pos()), "same producer/exchange predicate as the pipe loop", shortName(f)+" decides mode by ["+m+"], the pipe loop by ["+ref+"] (decision tables: "+t+" vs "+refT+")")
	}
	// ---- R-COLLECTOR-MODE
	want := map[string]string{"(*Server).serveStream": "isProducer", "(*HttpServer).handleExchangeCall": "false", "(*HttpServer).runProduceLoopCapped": "true"}
	n := 0
	for _, cs := range u.CallSitesOf(Is("newOutputCollector")) {
		sn := shortName(cs.Fn)
		w, ok := want[sn]
		if !ok {
			if strings.Contains(u.Pos(cs.Instr.Pos()), "_test.go") {
				continue
			}
			r.Viol("R-COLLECTOR-MODE", "collector@"+sn, u.Pos(cs.Instr.Pos()), "collector created outside the three dispatch loops")
			continue
		}
		n++
		d := u.Describe(cs.Arg(2))
		r.Check(d == w, "R-COLLECTOR-MODE", "collector@"+sn, u.Pos(cs.Instr.Pos()), "collector mode = "+w, "collector created in mode "+d+", the stream's mode is "+w)
	}
	r.Check(n == 3, "R-COLLECTOR-MODE", "three-collectors", "-", "three collector sites", itoa(n)+" collector sites")
	for _, cs := range u.Calls(hx, Is("(*HttpServer).handleExchangeCall")) {
		g := G(cs.Instr)
		r.Check(strings.Contains(g, "!isProducer") && strings.Contains(g, "assertok:ExchangeState("), "R-COLLECTOR-MODE", "exchange-branch", u.Pos(cs.Instr.Pos()), "exchange handler on the !isProducer branch with an ExchangeState", "handleExchangeCall reached under ["+g+"]")
	}
	for _, cs := range u.Calls(hx, Is("(*HttpServer).handleProducerContinuation")) {
		g := G(cs.Instr)
		r.Check(strings.Contains(g, "isProducer") && !strings.Contains(g, "!isProducer") && strings.Contains(g, "assertok:ProducerState("), "R-COLLECTOR-MODE", "producer-branch", u.Pos(cs.Instr.Pos()), "producer continuation on the isProducer branch with a ProducerState", "handleProducerContinuation reached under ["+g+"]")
	}
	// ---- R-VALIDATE-FINISH and R-FLUSH-CLASS
	for _, name := range []string{"(*Server).serveStream", "(*HttpServer).handleExchangeCall", "(*HttpServer).runProduceLoopCapped"} {
		fn := c.Fn("R-VALIDATE-FINISH", name)
		if fn == nil {
			continue
		}
		cols := u.Calls(fn, Is("newOutputCollector"))
		if len(cols) != 1 {
			r.Undec("R-VALIDATE-FINISH", name, u.Pos(fn.Pos()), "collector site not unique")
			continue
		}
		isFlush := func(in ssa.Instruction) bool {
			rg, ok := in.(*ssa.Range)
			if ok {
				return strings.HasSuffix(u.Describe(rg.X), "out.batches")
			}
			// range over a slice compiles to len()+index, not ssa.Range
			if ci, isC := in.(*ssa.Call); isC {
				if b, isB := ci.Call.Value.(*ssa.Builtin); isB && b.Name() == "len" && strings.HasSuffix(u.Describe(ci.Call.Args[0]), "out.batches") {
					// only the loop bound, not e.g. an index expression
					return true
				}
			}
			return false
		}
		vals := u.Calls(fn, Is("(*OutputCollector).validate"))
		isGate := func(in ssa.Instruction) bool {
			for _, v := range vals {
				if v.Instr == in {
					return true
				}
			}
			if ifi, ok := in.(*ssa.If); ok {
				if strings.Contains(u.Describe(ifi.Cond), "(*OutputCollector).Finished(") {
					return true
				}
			}
			return false
		}
		_, bypass := ReachWithout(fn, cols[0].Instr, isFlush, isGate)
		r.Check(len(vals) >= 1 && !bypass, "R-VALIDATE-FINISH", name+"|gate", u.Pos(cols[0].Instr.Pos()), "flush only after validate() or Finished()", "the flush loop is reachable without validate()/Finished(): a turn that emitted no data batch is flushed as if valid")
		for _, v := range vals {
			call := v.Instr.(*ssa.Call)
			_, eb := u.ErrBranch(call)
			okErr := false
			if eb != nil {
				for _, x := range u.CallsInBlockChain(eb) {
					if x.Callee == "writeErrorBatch" {
						okErr = true
					}
				}
				if okErr {
					_, reflush := ReachWithout(fn, eb.Instrs[0], isFlush, func(in ssa.Instruction) bool { return in == cols[0].Instr })
					okErr = !reflush
				}
			}
			r.Check(okErr, "R-VALIDATE-FINISH", name+"|failure", u.Pos(v.Instr.Pos()), "validate failure → error batch, turn not flushed", "a validate() failure does not end the turn with an error batch")
			g := G(v.Instr)
			if name != "(*HttpServer).handleExchangeCall" {
				r.Check(strings.Contains(g, "!(*OutputCollector).Finished("), "R-VALIDATE-FINISH", name+"|unless-finished", u.Pos(v.Instr.Pos()), "a finishing turn may emit nothing", "validate() also applied to a finishing turn: under ["+g+"]")
			}
		}
	}
	for _, name := range []string{"(*HttpServer).handleExchangeCall", "(*HttpServer).runProduceLoopCapped"} {
		fn := u.Func(name)
		if fn == nil {
			continue
		}
		// the statistic/limit/token actions of the data batch are on the index branch
		found := 0
		Instrs(fn, func(in ssa.Instruction) {
			ci, ok := in.(*ssa.Call)
			if !ok || u.CalleeName(&ci.Call) != "(*CallStatistics).RecordOutput" {
				return
			}
			found++
			g := G(in)
			r.Check(strings.Contains(g, "((rangeindex + 1) == out.dataBatchIdx)"), "R-FLUSH-CLASS", name+"|by-index", u.Pos(in.Pos()), "data batch recognised by its collector index", "data batch classified under ["+g+"], not by dataBatchIdx")
		})
		if found == 0 {
			r.Viol("R-FLUSH-CLASS", name+"|by-index", u.Pos(fn.Pos()), "no data-batch branch found")
		}
	}
	if pl := u.Func("(*HttpServer).runProduceLoopCapped"); pl != nil {
		okInc := false
		Instrs(pl, func(in ssa.Instruction) {
			if b, ok := in.(*ssa.BinOp); ok && u.Describe(b) == "(dataBatches + 1)" {
				g := G(in)
				if strings.Contains(g, "((rangeindex + 1) == out.dataBatchIdx)") && strings.Contains(g, "Write(writer, toWrite) == nil)") {
					okInc = true
				}
			}
		})
		r.Check(okInc, "R-FLUSH-CLASS", "runProduceLoopCapped|limit-counts-data", u.Pos(pl.Pos()), "batch limit counts each written data batch once", "dataBatches is not incremented on the written-data-batch edge")
		// R-BATCH-LIMIT
		Instrs(pl, func(in ssa.Instruction) {
			ret, ok := in.(*ssa.Return)
			if !ok || InRecoverBlock(in) {
				return
			}
			e, isC := ReturnValue(ret, 1).(*ssa.Const)
			if !isC || e.Value != nil {
				return
			}
			fin, _ := ReturnValue(ret, 0).(*ssa.Const)
			g := G(in)
			if fin == nil || fin.Value == nil {
				r.Viol("R-BATCH-LIMIT", "nonconst@b"+itoa(in.Block().Index), u.Pos(in.Pos()), "finished flag is not constant on an error-free exit")
				return
			}
			if fin.Value.String() == "true" {
				ok := strings.Contains(g, "context.Context.Err(ctx) != nil") || (strings.Contains(g, "(*OutputCollector).Finished(out)") && !strings.Contains(g, "!(*OutputCollector).Finished(out)") && strings.Contains(g, "((rangeindex + 1) >= len(out.batches))"))
				r.Check(ok, "R-BATCH-LIMIT", "finished@b"+itoa(in.Block().Index), u.Pos(in.Pos()), "stream ends only on Finish() after its flush, or cancellation", "produce loop reports finished under ["+g+"]")
			} else {
				flushDone := strings.Contains(g, "((rangeindex + 1) >= len(out.batches))") && strings.Contains(g, "!(*OutputCollector).Finished(out)")
				limit := strings.Contains(g, "(dataBatches >= h.producerBatchLimit)") && strings.Contains(g, "(h.producerBatchLimit > 0)")
				capd := strings.Contains(g, "(*bytes.Buffer).Len(body)) >= h.maxResponseBytes)") && strings.Contains(g, "(h.maxResponseBytes > 0)") && strings.Contains(g, "(body != nil)")
				r.Check(flushDone && (limit || capd), "R-BATCH-LIMIT", "continue@b"+itoa(in.Block().Index), u.Pos(in.Pos()), "continuation only after a complete cycle, at the batch limit or wire cap", "produce loop hands over to a continuation under ["+g+"]")
			}
		})
	}
	// user metadata of the data batch rides beneath the token (exchange)
	if he := u.Func("(*HttpServer).handleExchangeCall"); he != nil {
		okK, okT := false, false
		Instrs(he, func(in ssa.Instruction) {
			ci, ok := in.(*ssa.Call)
			if !ok {
				return
			}
			if b, isB := ci.Call.Value.(*ssa.Builtin); isB && b.Name() == "append" {
				d := u.describe(ci, 8)
				if strings.Contains(d, "arrow.Metadata).Keys(") {
					okK = true
				}
			}
		})
		Instrs(he, func(in ssa.Instruction) {
			if st, ok := in.(*ssa.Store); ok {
				if s, isS := ConstString(st.Val); isS && s == "vgi_rpc.stream_state#b64" && strings.Contains(G(in), "((rangeindex + 1) == out.dataBatchIdx)") {
					okT = true
				}
			}
		})
		r.Check(okK && okT, "R-FLUSH-CLASS", "handleExchangeCall|meta-under-token", u.Pos(he.Pos()), "per-emit metadata kept, token appended on top", "exchange data batch metadata is not {emit metadata…, stream_state}")
	}
	r.Floor("R-CAST-SOURCES", 7)
	r.Floor("R-TOKEN-SCHEMA", 3)
	r.Floor("R-MODE", 3)
	r.Floor("R-COLLECTOR-MODE", 6)
	r.Floor("R-VALIDATE-FINISH", 8)
	r.Floor("R-FLUSH-CLASS", 4)
	r.Floor("R-BATCH-LIMIT", 4)
}
