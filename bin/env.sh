# sourced by every /verif script: offline Go toolchain that can load /repo
export PATH=/opt/veriftools/go1.26.8/bin:$PATH
export GOFLAGS=-mod=mod GOPROXY=off GOSUMDB=off GOTOOLCHAIN=local GOWORK=off
export GONOSUMDB=* GONOSUMCHECK=1 GOFLAGS=-mod=mod
